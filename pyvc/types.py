"""Types of the pyvc encoding and their z3 sorts.

Every symbolic value is a pair (z3 term, Ty).  Mutable Python collections are
encoded functionally:

    set / frozenset        Array(T, Bool)
    dict / defaultdict     Array(K, Opt[V])     (absent key = none)
    list / deque / tuple   Seq(T)
    T | None               datatype Opt_T = none | some(val)
    frozen dataclass       datatype with one constructor
    StrEnum / Enum         z3 enumeration sort
    str                    String, or an uninterpreted "atom" sort when only
                           equality / hashing / truthiness of the string is used
    int                    Int (mathematical, exact for Python)
    float, datetime        Real  (floats as reals: stated assumption)
"""
from __future__ import annotations

import z3

_sort_cache: dict[str, object] = {}


class Ty:
    name = "?"

    def sort(self):
        raise NotImplementedError

    def __repr__(self):
        return self.name

    def __eq__(self, other):
        return isinstance(other, Ty) and self.name == other.name

    def __hash__(self):
        return hash(self.name)


class _Prim(Ty):
    def __init__(self, name, mk):
        self.name = name
        self._mk = mk

    def sort(self):
        return self._mk()


BOOL = _Prim("bool", z3.BoolSort)
INT = _Prim("int", z3.IntSort)
REAL = _Prim("real", z3.RealSort)
STR = _Prim("str", z3.StringSort)
DATETIME = _Prim("datetime", z3.RealSort)   # seconds since the epoch; always truthy; datetime - datetime = real (timedelta seconds)


class Atom(Ty):
    """Uninterpreted sort for strings used only as identities (always truthy)."""

    def __init__(self, name):
        self.name = name

    def sort(self):
        if self.name not in _sort_cache:
            _sort_cache[self.name] = z3.DeclareSort(self.name)
        return _sort_cache[self.name]


class Enum(Ty):
    def __init__(self, name, members, values=None):
        self.name = name
        self.members = list(members)
        self.values = dict(values or {})  # member -> python value (for StrEnum)

    def sort(self):
        key = "enum:" + self.name
        if key not in _sort_cache:
            s, consts = z3.EnumSort(self.name, self.members)
            _sort_cache[key] = (s, dict(zip(self.members, consts)))
        return _sort_cache[key][0]

    def const(self, member):
        self.sort()
        return _sort_cache["enum:" + self.name][1][member]


class Opt(Ty):
    def __init__(self, inner: Ty):
        assert not isinstance(inner, Opt), "nested Opt"
        self.inner = inner
        self.name = f"Opt[{inner.name}]"

    def sort(self):
        key = self.name
        if key not in _sort_cache:
            m = _mangle(self.inner.name)
            d = z3.Datatype("Opt_" + m)
            # constructor / accessor names carry the type: the SMT-LIB text of a query is then unambiguous (second solver, stored queries)
            d.declare("none_" + m)
            d.declare("some_" + m, ("val_" + m, self.inner.sort()))
            _sort_cache[key] = d.create()
        return _sort_cache[key]

    def _m(self):
        return _mangle(self.inner.name)

    def none(self):
        return getattr(self.sort(), "none_" + self._m())

    def some(self, t):
        return getattr(self.sort(), "some_" + self._m())(t)

    def is_none(self, t):
        return getattr(self.sort(), "is_none_" + self._m())(t)

    def is_some(self, t):
        return getattr(self.sort(), "is_some_" + self._m())(t)

    def val(self, t):
        return getattr(self.sort(), "val_" + self._m())(t)


class Record(Ty):
    def __init__(self, name, fields):
        self.name = name
        self.fields = list(fields)  # [(fname, Ty)]

    def sort(self):
        key = "rec:" + self.name
        if key not in _sort_cache:
            d = z3.Datatype(self.name)
            d.declare("mk_" + self.name, *[(self.name + "_" + f, t.sort()) for f, t in self.fields])
            _sort_cache[key] = d.create()
        return _sort_cache[key]

    def field_ty(self, f):
        for n, t in self.fields:
            if n == f:
                return t
        raise KeyError(f)

    def has(self, f):
        return any(n == f for n, _ in self.fields)

    def get(self, term, f):
        return getattr(self.sort(), self.name + "_" + f)(term)

    def make(self, *terms):
        return getattr(self.sort(), "mk_" + self.name)(*terms)


class SetT(Ty):
    def __init__(self, elem: Ty):
        self.elem = elem
        self.name = f"Set[{elem.name}]"

    def sort(self):
        return z3.ArraySort(self.elem.sort(), z3.BoolSort())

    def empty(self):
        return z3.K(self.elem.sort(), z3.BoolVal(False))


class MapT(Ty):
    """dict K -> V as Array(K, Opt[V]). default: None (plain dict) or a callable
    returning the default *term* (defaultdict)."""

    def __init__(self, key: Ty, val: Ty, default=None, default_name=""):
        self.key = key
        self.val = val
        self.opt = Opt(val)
        self.default = default
        self.name = f"Map[{key.name},{val.name}]" + (f"/dd:{default_name}" if default else "")

    def sort(self):
        return z3.ArraySort(self.key.sort(), self.opt.sort())

    def empty(self):
        return z3.K(self.key.sort(), self.opt.none())

    def plain(self):
        return MapT(self.key, self.val)


class BagT(Ty):
    """Multiset as Array(elem, Int); only manipulated by contracts (abstract broker queue)."""

    def __init__(self, elem: Ty):
        self.elem = elem
        self.name = f"Bag[{elem.name}]"

    def sort(self):
        return z3.ArraySort(self.elem.sort(), z3.IntSort())


class SeqT(Ty):
    def __init__(self, elem: Ty):
        self.elem = elem
        self.name = f"Seq[{elem.name}]"

    def sort(self):
        return z3.SeqSort(self.elem.sort())

    def empty(self):
        return z3.Empty(self.sort())


class TupleT(Ty):
    """Python-level tuple of values (never stored in a z3 container)."""

    def __init__(self, items):
        self.items = list(items)
        self.name = "Tuple[" + ",".join(t.name for t in items) + "]"


class ObjT(Ty):
    """Reference to a heap object with a declared shape."""

    def __init__(self, shape: str):
        self.shape = shape
        self.name = "Obj:" + shape


class OpaqueT(Ty):
    """A value nothing is known about (result of dropped/abstracted calls)."""

    def __init__(self, name="opaque"):
        self.name = name

    def sort(self):
        return Atom("Opaque_" + self.name).sort()


def _mangle(s: str) -> str:
    return "".join(c if c.isalnum() else "_" for c in s)


def dd_set(elem: Ty):
    st = SetT(elem)
    return lambda: st.empty()
