"""Symbolic values, state, and result plumbing of the pyvc symbolic executor."""
from __future__ import annotations

import itertools

import z3

from .types import BOOL, INT, REAL, STR, Atom, Enum, MapT, ObjT, Opt, OpaqueT, Record, SeqT, SetT, Ty

_counter = itertools.count()


def reset_names(start: int = 1_000_000) -> None:
    """generated names restart per verified function: the same function and contracts give the same VCs whatever ran before"""
    global _counter
    _counter = itertools.count(start)


_last = [0]


def fresh_name(prefix: str) -> str:
    _last[0] = next(_counter)
    return f"{prefix}!{_last[0]}"


def name_mark() -> int:
    """index of the most recently generated name (names generated later have a larger index)"""
    return _last[0]


class Val:
    """A z3 term with its pyvc type."""

    __slots__ = ("term", "ty", "origin", "template")

    def __init__(self, term, ty: Ty, origin=None, template=None):
        self.term = term
        self.ty = ty
        self.origin = origin  # l-value path this value was read from (alias tracking)
        self.template = template  # for string literals / f-strings: the text with {expr} placeholders (SQL glue)

    def __repr__(self):
        return f"Val({self.term}:{self.ty})"


class NoneVal:
    def __repr__(self):
        return "NONE"


NONE = NoneVal()


class ObjRef:
    __slots__ = ("oid", "shape")

    def __init__(self, oid, shape):
        self.oid = oid
        self.shape = shape

    def __repr__(self):
        return f"<{self.shape}#{self.oid}>"


class TupleVal:
    def __init__(self, items):
        self.items = list(items)

    def __repr__(self):
        return f"Tuple{self.items}"


class ListVal:
    """A Python list whose length is known (list literal, collected values)."""

    def __init__(self, items):
        self.items = list(items)

    def __repr__(self):
        return f"List{self.items}"


class ExcVal:
    def __init__(self, cls: str, exact=True, fields=None, note=""):
        self.cls = cls
        self.exact = exact
        self.fields = fields or {}
        self.note = note

    def __repr__(self):
        return f"Exc({self.cls}{'' if self.exact else '+'})"


class ExcType:
    """type(exc) of a raised exception known by (a super-)class name: the exact class may be that class or a proper subclass of it."""

    def __init__(self, cls: str):
        self.cls = cls

    def __repr__(self):
        return f"type(Exc({self.cls}))"


class FuncVal:
    """A resolved repository function or class."""

    def __init__(self, module: str, name: str, kind="func"):
        self.module = module
        self.name = name
        self.kind = kind

    @property
    def key(self):
        return f"{self.module}:{self.name}"

    def __repr__(self):
        return f"Func({self.key})"


class ModVal:
    def __init__(self, name):
        self.name = name


class BuiltinVal:
    def __init__(self, name):
        self.name = name

    def __repr__(self):
        return f"Builtin({self.name})"


class BoundMeth:
    def __init__(self, recv, name, lv=None):
        self.recv = recv
        self.name = name
        self.lv = lv


class PropertyRead:
    """Marker: the attribute is a @property of an object; the expression evaluator calls it."""

    def __init__(self, recv, name):
        self.recv = recv
        self.name = name


class GenVal:
    """Result of running a generator to completion: output as a set plus count,
    and optionally as a sequence."""

    def __init__(self, elem_ty, out_set, count, seq=None):
        self.elem_ty = elem_ty
        self.out_set = out_set
        self.count = count
        self.seq = seq


class RangeVal:
    """range(start, stop, step) with symbolic bounds: iterated only by a for loop that has an invariant"""

    def __init__(self, start, stop, step):
        self.start, self.stop, self.step = start, stop, step


class LambdaVal:
    def __init__(self, node, env):
        self.node = node
        self.env = env


class Native:
    """Contract-provided model of a module-level object or dependency."""

    def vc_getattr(self, eng, st, name):
        raise NotImplementedError(f"{type(self).__name__}.{name}")

    def vc_call(self, eng, st, name, args, kwargs):
        raise NotImplementedError(f"{type(self).__name__}.{name}()")


class State:
    def __init__(self):
        self.env: dict = {}
        self.heap: dict = {}
        self.old_heap: dict = {}
        self.pc: list = []
        self.ghost: dict = {}
        self.events: list = []
        self.perms: list = []
        self.imports: dict = {}
        self.trail: list = []  # branch decisions, for path naming

    def fork(self) -> "State":
        s = State.__new__(State)
        s.env = dict(self.env)
        s.heap = dict(self.heap)
        s.old_heap = self.old_heap  # shared on purpose: lazily created initial fields
        s.pc = list(self.pc)
        s.ghost = dict(self.ghost)
        s.events = list(self.events)
        s.perms = list(self.perms)
        s.imports = dict(self.imports)
        s.trail = list(self.trail)
        return s

    def assume(self, cond) -> "State":
        if cond is True:
            return self
        if z3.is_true(cond):
            return self
        self.pc.append(cond)
        return self


# result kinds
OK, RET, RAISE, BRK, CONT = "ok", "return", "raise", "break", "continue"


def bind(results, f):
    out = []
    for kind, st, v in results:
        if kind == OK:
            out.extend(f(st, v))
        else:
            out.append((kind, st, v))
    return out


def mk_fresh(ty: Ty, prefix="v") -> Val:
    return Val(z3.Const(fresh_name(prefix), ty.sort()), ty)


def boolval(b) -> Val:
    return Val(z3.BoolVal(bool(b)), BOOL)
