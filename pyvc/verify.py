"""Verification of one real function against its sidecar contract."""
from __future__ import annotations

import ast
import time
import traceback

import z3

from . import calls, stmts  # noqa: F401  (attach methods to Engine)
from .contract import Contract, Registry
from .engine import Ctx, Engine
from .ops import Unsupported, coerce
from .solve import Obligation, discharge
from .source import Source, loop_nodes
from .types import BOOL, INT, REAL, STR, ObjT, Opt, SeqT, SetT, Ty
from .values import BRK, CONT, NONE, OK, RAISE, RET, ExcVal, GenVal, NoneVal, ObjRef, State, TupleVal, Val, mk_fresh


class FunctionReport:
    def __init__(self, key):
        self.key = key
        self.info = None
        self.obligations: list[Obligation] = []
        self.paths = 0
        self.infeasible = 0
        self.inlined: list[str] = []
        self.dropped: list[str] = []
        self.error: str | None = None      # unsupported construct / engine failure => undecided
        self.error_kind = ""
        self.time_s = 0.0


def setup_state(eng: Engine, contract: Contract, fi):
    st = State()
    self_ref = None
    args = {}
    a = fi.node.args
    names = [x.arg for x in a.posonlyargs + a.args + a.kwonlyargs]
    if contract.shape:
        self_ref = eng.new_obj(contract.shape)
        if names and names[0] in ("self", "cls"):
            st.env[names[0]] = self_ref
            names = names[1:]
    root_shape = getattr(contract, "root_shape", None)
    if root_shape and self_ref is None:
        root = st.ghost["$root"] = eng.new_obj(root_shape)
        # components reachable from the root object point back to it (one app, one set of components)
        for fld, fty in eng.reg.shapes[root_shape].fields.items():
            if isinstance(fty, ObjT) and "app" in eng.reg.shapes[fty.shape].fields:
                child = eng.heap_read(st, root, fld)
                st.heap[(child.oid, "app")] = root
                st.old_heap[(child.oid, "app")] = root
    for n in names:
        if n not in contract.params:
            raise Unsupported(f"parameter {n} of {contract.key} has no declared type")
        ty = contract.params[n]
        if isinstance(ty, ObjT):
            v = eng.new_obj(ty.shape)
        else:
            v = mk_fresh(ty, n)
        st.env[n] = v
        args[n] = v
    sp = getattr(contract, "sentinel_param", None)
    if sp:
        flag = mk_fresh(contract.params[sp[1]], sp[1])
        args[sp[1]] = flag
        eng.sentinel_flags = {str(args[sp[0]].term): flag.term}
    if a.vararg or a.kwarg:
        if not getattr(contract, "opaque_varargs", False):
            raise Unsupported("*args/**kwargs in verified function")
        from .types import Atom
        for prm, tyname in ((a.vararg, "VarArgs"), (a.kwarg, "KwArgs")):
            if prm is not None:     # handed through unchanged to callees with assumed contracts, never inspected
                v = mk_fresh(Atom(tyname), prm.arg)
                st.env[prm.arg] = v
                args[prm.arg] = v
    if self_ref is not None:
        def follow(path):
            ref = self_ref
            for p in [x for x in path.split(".") if x]:
                ref = eng.heap_read(st, ref, p)
            return ref
        for entry in getattr(eng.reg.shapes[contract.shape], "backrefs", ()):
            via, back = entry[0], entry[1]
            target = follow(entry[2]) if len(entry) > 2 else self_ref
            other = follow(via)
            st.heap[(other.oid, back)] = target
            st.old_heap[(other.oid, back)] = target
    st.ghost["$args"] = args
    for ax in getattr(eng.reg, "axioms", ()):      # definitional axioms of spec functions (listed as assumptions by the module)
        st.assume(ax)
    for gname, gty in (getattr(contract, "ghost_init", None) or {}).items():
        st.ghost[gname] = mk_fresh(gty, gname.replace(":", "_"))
        st.ghost["$" + gname.split(":")[-1] + "0"] = st.ghost[gname]
    if getattr(contract, "body_hook", None):
        st.ghost["$body_hook"] = contract.body_hook
    if getattr(contract, "yield_hook", None):
        st.ghost["$yield_hook"] = contract.yield_hook
    if contract.generator is not None:
        ety = contract.generator
        st.ghost["$out_set"] = Val(SetT(ety).empty(), SetT(ety))
        st.ghost["$out_count"] = Val(z3.IntVal(0), INT)
        if contract.gen_seq:
            st.ghost["$out_seq"] = Val(SeqT(ety).empty(), SeqT(ety))
    return st, self_ref, args


def check_exit(eng: Engine, contract: Contract, kind, st: State, val, self_ref, args, frame):
    exc = val if kind == RAISE else None
    result = val if kind != RAISE else None
    if contract.generator is not None and kind != RAISE:
        result = GenVal(contract.generator, st.ghost["$out_set"].term, st.ghost["$out_count"].term)
    elif kind != RAISE and contract.result is not None and not isinstance(contract.result, (ObjT, list)) and result is not None:
        so = getattr(eng.reg, "str_of", {}).get(getattr(getattr(result, "ty", None), "name", None)) if isinstance(result, Val) else None
        if so is not None and contract.result == STR:
            result = Val(so(result), STR)
        result = eng.need(st, result, contract.result)    # Optional values are unwrapped under a not-None obligation
    post_extra = {}
    for pn in getattr(contract, "mutable_params", ()):
        cur = st.env.get(pn)
        if isinstance(cur, Val):
            post_extra[f"post:{pn}"] = cur.term
    ctx = Ctx(eng, st, self_ref, args, result=result, exc=exc, extra=post_extra)
    path = "exit"
    if kind == RAISE:
        cases = [c for c in contract.raising_cases() if eng.exc_is_subclass(exc.cls, c.raises)
                 or (not exc.exact and eng.exc_is_subclass(c.raises, exc.cls))]
        label = f"raises:{exc.cls}"
        if not cases:
            splits = getattr(contract, "exit_splits", None)
            if splits:
                # one obligation per value combination of the split terms: a listed known finding then covers
                # exactly its own combination and every other one is still a VIOLATION
                combos = [([], [])]
                for sname, sfn, sty in splits:
                    term = sfn(ctx)
                    if term is None:
                        continue
                    vals = [(m, sty.const(m)) for m in sty.members] if hasattr(sty, "members") else [("True", z3.BoolVal(True)), ("False", z3.BoolVal(False))]
                    combos = [(ls + [f"{sname}={m}"], cs + [term == v]) for ls, cs in combos for m, v in vals]
                for ls, cs in combos:
                    s2 = st.fork()
                    for cnd in cs:
                        s2.assume(cnd)
                    eng.oblige(s2, z3.BoolVal(False), f"{label}:undeclared-exception[{','.join(ls)}]", "raises",
                               detail=f"exception {exc.cls} escapes but no contract case declares it")
                return
            eng.oblige(st, z3.BoolVal(False), f"{label}:undeclared-exception", "raises",
                       detail=f"exception {exc.cls} escapes but no contract case declares it")
            return
    else:
        cases = contract.normal_cases()
        label = "ensures"
        if not cases:
            eng.oblige(st, z3.BoolVal(False), "normal-exit-not-allowed", "ensures")
            return
    # the exit kind must be one that the contract allows for this pre-state
    whens = [c.when(ctx) if c.when is not None else z3.BoolVal(True) for c in cases]
    eng.oblige(st.fork(), z3.Or(whens), f"{label}:case-applies", "ensures" if kind != RAISE else "raises")
    for c, w in zip(cases, whens):
        for name, f in c.ensures:
            s2 = st.fork()
            s2.assume(w)
            eng.oblige(s2, f(Ctx(eng, s2, self_ref, args, result=result, exc=exc, extra=post_extra)), f"{label}:{c.name}:{name}",
                       "ensures" if kind != RAISE else "raises")
        if kind == RAISE:
            for fname, ff in c.exc_fields.items():
                s2 = st.fork()
                s2.assume(w)
                got = exc.fields.get(fname)
                want = ff(Ctx(eng, s2, self_ref, args, result=result, exc=exc, extra=post_extra))
                from .ops import coerce
                try:
                    goal = z3.BoolVal(False) if got is None else coerce(got, want.ty).term == want.term
                except Exception:
                    goal = z3.BoolVal(False)
                eng.oblige(s2, goal, f"{label}:{c.name}:exception-attribute:{fname}", "raises")
    # frame: heap cells outside the declared frame are unchanged
    for (oid, fld), cur in st.heap.items():
        old = st.old_heap.get((oid, fld))
        if old is None or (oid, fld) in frame or fld in eng.dont_care_fields():
            continue
        if isinstance(cur, Val) and isinstance(old, Val):
            if cur.term is old.term or z3.eq(cur.term, old.term):
                continue
            eng.oblige(st.fork(), cur.term == old.term, f"frame:{fld}", "frame")
        elif isinstance(cur, ObjRef) and isinstance(old, ObjRef) and cur.oid != old.oid:
            eng.oblige(st.fork(), z3.BoolVal(False), f"frame:{fld}", "frame")
    # representation invariant re-established on every exit
    if contract.shape and contract.check_invariants:
        shape = eng.reg.shapes[contract.shape]
        for name, f in shape.invariants:
            eng.oblige(st.fork(), f(Ctx(eng, st, self_ref, args)), f"inv:{name}:{'raise' if kind == RAISE else 'exit'}", "invariant")


def witness_obligations(eng: Engine, contract: Contract, st: State, self_ref, args):
    """Vacuity guard for quantified preconditions: every contract witness (a concrete pre-state written in
    the sidecar) must satisfy the representation invariant and the requires clauses (ground => decidable)."""
    from .concretize import atoms_distinct, from_py
    for wi, w in enumerate(contract.witnesses):
        eqs = []
        for name, pyv in w.get("args", {}).items():
            v = args[name]
            eqs.append(v.term == from_py(pyv, v.ty))
        for path, pyv in w.get("fields", {}).items():
            ref = self_ref
            parts = path.split(".")
            for p in parts[:-1]:
                ref = eng.heap_read(st, ref, p)
            v = eng.heap_read(st, ref, parts[-1])
            eqs.append(v.term == from_py(pyv, v.ty))
        ob = Obligation(name=f"{eng.cur_prefix}/witness{wi}:satisfies-precondition", kind="cover",
                        pc=list(st.pc) + eqs + atoms_distinct(), goal=z3.BoolVal(True), function=contract.key, expect_sat=True)
        ob.extra["witness"] = True
        eng.obligations.append(ob)


_known_cache = {}


def _is_known_finding(name: str) -> bool:
    import fnmatch, json, os
    pid = name.split("/")[0]
    if pid not in _known_cache:
        pats = []
        path = os.path.join(os.path.dirname(os.path.dirname(os.path.abspath(__file__))), "findings", "known_findings.jsonl")
        if os.path.exists(path):
            for line in open(path):
                line = line.strip()
                if line.startswith("{"):
                    rec = json.loads(line)
                    if rec.get("property") == pid:
                        m = rec.get("match") or []
                        pats += [m] if isinstance(m, str) else list(m)
        _known_cache[pid] = pats
    return any(fnmatch.fnmatchcase(name, p) for p in _known_cache[pid])


def verify_function(src: Source, reg: Registry, contract: Contract, prefix: str, step_hooks=None,
                    z3_timeout=None, solve=True) -> FunctionReport:
    rep = FunctionReport(contract.key)
    t0 = time.time()
    from .values import reset_names
    reset_names()
    eng = Engine(src, reg)
    try:
        fi = src.function(contract.key)
        rep.info = fi.describe(src.root)
        eng.cur_fn = fi
        eng.cur_contract = contract
        eng.top_contract = contract
        eng.cur_prefix = f"{prefix}/{contract.key}"
        eng.module_stack = [fi.module.name]
        eng.loop_ordinals = {id(n): i for i, n in enumerate(loop_nodes(fi.node))}
        for o in contract.loops:
            if o >= len(eng.loop_ordinals):
                raise Unsupported(f"contract names loop {o} but the function has {len(eng.loop_ordinals)} loops")
        eng.step_hooks = list(step_hooks or []) + list(getattr(contract, "step_hooks", []) or [])
        eng.T = getattr(reg, "T", None)
        st, self_ref, args = setup_state(eng, contract, fi)
        eng.self_ref = self_ref
        frame = set()
        frame_root = self_ref if self_ref is not None else st.ghost.get("$root")
        if frame_root is not None:
            for oid, fld, _ref in eng.frame_cells(st, frame_root, contract):
                frame.add((oid, fld))
        if frame_root is not None:
            st.ghost["$frame_cells"] = frame
        # preconditions
        if contract.shape and contract.check_invariants:
            for name, f in eng.reg.shapes[contract.shape].invariants:
                st.assume(f(Ctx(eng, st, self_ref, args)))
        for name, f in contract.requires:
            st.assume(f(Ctx(eng, st, self_ref, args)))
        if getattr(contract, "decreases", None) is not None:
            st.ghost["$measure0"] = contract.decreases(Ctx(eng, st, self_ref, args))
        # vacuity: the precondition must be satisfiable
        cover = Obligation(name=f"{eng.cur_prefix}/cover:requires", kind="cover", pc=list(st.pc), goal=z3.BoolVal(True),
                           function=contract.key, expect_sat=True)
        eng.obligations.append(cover)
        witness_obligations(eng, contract, st, self_ref, args)
        eng.trace_fields = tuple(getattr(contract, "trace_fields", ()))   # heap-access events only for the code under verification
        exits = eng.exec_block(fi.node.body, st)
        eng.trace_fields = ()
        for kind, s, v in exits:
            eng.paths += 1
            if kind == OK:
                kind, v = RET, NONE
            if kind in (BRK, CONT):
                raise Unsupported("break/continue at function level")
            check_exit(eng, contract, kind, s, v, self_ref, args, frame)
    except z3.Z3Exception as e:
        # a clause of the sidecar does not type-check against what the code now computes (e.g. a loop over another kind of element)
        rep.error = f"unsupported: a contract clause does not fit the code any more ({str(e)[:80]})"
        rep.error_kind = "unsupported"
    except Unsupported as e:
        rep.error = f"unsupported: {e}"
        rep.error_kind = "unsupported"
    except Exception as e:  # engine failure is never a verdict on the code
        rep.error = f"engine error: {type(e).__name__}: {e}\n{traceback.format_exc(limit=6)}"
        rep.error_kind = "engine"
    rep.obligations = eng.obligations
    rep_args = locals().get("args")
    rep_self = locals().get("self_ref")
    rep_old_heap = locals().get("st").old_heap if locals().get("st") is not None else {}
    rep.paths = eng.paths
    rep.infeasible = eng.infeasible_paths
    rep.inlined = sorted(eng.inlined)
    rep.dropped = sorted(eng.dropped)
    rep.assumed = dict(getattr(eng, "used_assumed", {}))
    rep.used_contracts = sorted(getattr(eng, "used_contracts", ()))
    rep.axioms = [str(a)[:200] for a in getattr(eng.reg, "axioms", ())]
    if solve and rep.error is None:
        # unique names: same clause on several paths gets a path suffix
        seen = {}
        for ob in rep.obligations:
            n = seen.get(ob.name, 0)
            seen[ob.name] = n + 1
            if n:
                ob.name = f"{ob.name}#p{n}"
        for ob in rep.obligations:
            if _is_known_finding(ob.name):
                # listed in the known-findings file: a short budget is enough (it fails or stays undecided either way)
                discharge(ob, use_cvc5=False, z3_timeout=5000, retry=False)
                continue
            if ob.kind == "cover":
                discharge(ob, use_cvc5=False, z3_timeout=10000 if ob.extra.get("witness") else 2000)
                if ob.extra.get("witness") and ob.status != "discharged":
                    rep.error = f"vacuity guard: witness pre-state of {contract.key} does not satisfy its precondition ({ob.status})"
                    rep.error_kind = "vacuity"
            else:
                discharge(ob, z3_timeout=z3_timeout)
            if ob.status == "failed" and ob.model is not None:
                try:
                    from .concretize import value_to_py
                    ob.extra["args_py"] = {n: value_to_py(ob.model, v) for n, v in (rep_args or {}).items()}
                    pre = {}
                    if rep_self is not None:
                        for (oid, fld), v in rep_old_heap.items():
                            if isinstance(v, Val):
                                pre[f"{oid}.{fld}"] = value_to_py(ob.model, v)
                    ob.extra["pre_py"] = pre
                    ob.extra["self_oid"] = rep_self.oid if rep_self is not None else None
                except Exception as e:  # concretisation is best effort
                    ob.extra["concretize_error"] = f"{type(e).__name__}: {e}"
            if ob.kind == "cover" and ob.status != "discharged" and ob.status != "unknown":
                rep.error = f"vacuous contract: precondition of {contract.key} is unsatisfiable"
                rep.error_kind = "vacuity"
    rep.time_s = time.time() - t0
    return rep
