#!/bin/bash
# Builds /verif/.venv offline: python 3.12 of /venv + solver wheels from the local wheelhouse.
set -euo pipefail
cd "$(dirname "$0")"
export PIP_NO_INDEX=1
if [ -x .venv/bin/python ] && .venv/bin/python -c "import z3, cvc5, jsonschema, hypothesis, pynenc" 2>/dev/null; then
  echo "setup: .venv already usable"; exit 0
fi
rm -rf .venv
/venv/bin/python -m venv .venv
.venv/bin/pip install -q --no-index --find-links /opt/veriftools/wheels z3-solver cvc5 jsonschema hypothesis
SP=$(.venv/bin/python -c "import site; print(site.getsitepackages()[0])")
echo "import site; site.addsitedir('/venv/lib/python3.12/site-packages')" > "$SP/zz_repo_deps.pth"
.venv/bin/python -c "import z3, cvc5, jsonschema, hypothesis, pynenc; print('setup ok', z3.get_version_string())"
