#!/usr/bin/env python3
"""Prints the prompt for a seeding sub-agent: only the property text and a scratch worktree."""
import json, sys
pid, wt, outdir = sys.argv[1:4]
p = next(json.loads(l) for l in open('/verif/properties.jsonl') if json.loads(l)['id'] == pid)
print(f"""You are helping to evaluate a verification effort by seeding realistic defects.

Software: pynenc, a Python distributed task orchestrator. You have your own scratch git worktree of it at {wt}
(work ONLY there; never touch /repo or /verif; do not read anything under /verif).

Property ({pid}): {p['title']}
Statement: {p['statement']}
Scope of the universal claim: {p['quantifier']['text']}
Relevant files (hints): {', '.join(p['anchors']['files'])}

Task: produce TWO different, independent changes to the pynenc source (each as its own patch against the clean worktree) that BREAK this property
while the code still compiles and the existing test suite still passes. Prefer changes that need something specific to manifest - a particular
interleaving, a crash or fault at a particular point, a multi-step sequence of operations, an unusual input, or two cooperating sites that each
look fine alone - not changes that ordinary use would expose at once. Keep each change small and realistic (the kind of slip a maintainer could make
in a refactoring or an 'optimisation').

For each change k in (1, 2):
 1. edit the worktree, then save the patch:  git -C {wt} diff > {outdir}/{pid}_k/patch.diff   (replace k)
 2. write a demonstration {outdir}/{pid}_k/demo.py: a small stand-alone program (run as `cd {wt} && /venv/bin/python {outdir}/{pid}_k/demo.py`)
    that exits 0 when the property holds and exits 1 (printing what went wrong) when it is violated. It must FAIL with the change applied
    and PASS on the clean worktree (verify both!). Use the real pynenc code (PynencBuilder().app_id('x').memory().build() gives an in-memory app;
    .sqlite('<path>') a SQLite one; look at pynenc_tests for usage). The demo may force a schedule with threads/barriers or monkeypatch a
    single call to inject a crash, if the violation needs that.
 3. run the relevant part of the existing test suite with the change applied, and finally the whole suite once
    (cd {wt} && /venv/bin/python -m pytest -q -p no:cacheprovider --timeout=900 -x -q ; about 5 minutes) - it must pass.
 4. write {outdir}/{pid}_k/meta.json with keys: property, summary (what the change does), needs (what is needed for the violation to manifest),
    files_changed, tests_run (commands and outcome), demo_clean_exit, demo_mutated_exit.
 5. restore the worktree (git -C {wt} checkout -- . ) before the next change.

Python to use: /venv/bin/python. There is no network. The machine is shared and busy: if a timing-sensitive test fails in the full run, rerun that test alone before concluding anything. Demos must add os.getcwd() to sys.path first (the installed pynenc points at /repo, the demo must import the worktree). Do not commit anything. When done, reply with a short summary of the two changes and the paths written.""")
