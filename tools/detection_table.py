#!/usr/bin/env python3
"""Markdown table of the seeded changes under /verif/seeded and the verdict of each check on them (from meta.json written by seed_table.py)."""
import json, os, glob
HERE = os.path.dirname(os.path.dirname(os.path.abspath(__file__)))
rows = ["| seeded change | what it does (needs) | check → verdict on the patched tree | deciding obligation / case |", "|---|---|---|---|"]
for d in sorted(glob.glob(os.path.join(HERE, "seeded", "C*_*"))):
    m = json.load(open(os.path.join(d, "meta.json")))
    det = m.get("detection", {})
    name = os.path.basename(d)
    what = (m.get("summary") or "").strip().replace("|", "/").replace("\n", " ")
    needs = (m.get("needs") or "").strip().replace("|", "/").replace("\n", " ")
    what = (what[:170] + "…") if len(what) > 170 else what
    needs = (needs[:110] + "…") if len(needs) > 110 else needs
    if not det.get("patch_applies_to_current_tree", True):
        rows.append(f"| {name} | {what} ({needs}) | patch no longer applies to the repaired tree | – |")
        continue
    verdicts, deciding = [], []
    for pid, r in det.get("checks", {}).items():
        v = {0: "passes (not caught)", 1: "VIOLATION", 2: "undecided", 3: "checker error"}.get(r["exit"], str(r["exit"]))
        verdicts.append(f"{pid}: {v}")
        if r["exit"] == 1:
            ob = next((l for l in r["lines"] if l.strip().startswith(("obligation:", "bounded check"))), "").strip()
            kind = "failed" if ("[failed" in ob or ob.startswith("bounded check")) else "baseline"
            if ob.startswith("obligation:"):
                name = ob[len("obligation:"):].strip().split("  [")[0]
                parts = name.split("/", 2)
                ob = (parts[1].split(":")[-1] + " / " + parts[2]) if len(parts) == 3 else name
            ob = ob.replace("|", "/")
            deciding.append(f"{pid}: {ob[:170]} ({kind})")
    rows.append(f"| {name} | {what} ({needs}) | {'; '.join(verdicts)} | {' ; '.join(deciding) or '–'} |")
print("\n".join(rows))
