#!/usr/bin/env python3
"""Regenerates /verif/MANIFEST.json from the table below (single source of truth)."""
import json
import os

HERE = os.path.dirname(os.path.dirname(os.path.abspath(__file__)))
BASELINE = ("cd /repo && /venv/bin/python -m pytest -ra -q -p no:cacheprovider --timeout=900 "
            "--continue-on-collection-errors")

COMMON_NOTE = ("Trusted: the pyvc VC generator in /verif/pyvc (self-validated by seeded mutants, see DESIGN appendix B), z3 5.1 and cvc5 1.0.3, "
               "the declared shapes (no aliasing between distinct fields), ints mathematical, floats/datetimes as reals, "
               "assumed contracts of stdlib/third-party calls listed in the evidence file. Bounded stand-ins are labelled and never counted as proved.")

CLAIMED = {
    "C01": dict(
        category="proof", design_ref="DESIGN.md §5 C01",
        text="status_record_transition is proved equal to an independent spec of the documented graph + ownership rules for all records, statuses and "
             "runner-id strings (loop-free, complete); MemOrchestrator's transition/registration functions are proved to write exactly the validated "
             "record, keep the status-index invariant and leave everything untouched on refusal; both real backends are additionally enumerated over "
             "the complete single-step space through the public call (bounded stand-in, exhaustive).",
        technique="contract-based deductive verification (AST->z3 VCs of the real functions against a frozen lifecycle spec) + exhaustive single-step enumeration of both backends",
    ),
}

CLAIMED.update({
    "C08": dict(
        category="proof", design_ref="DESIGN.md §5 C08",
        text="MemBroker's five operations are proved against a sequence view (append at the tail, pop exactly the head, length, clear) for all queues "
             "and all batch lengths (loop invariant); exactly-once FIFO delivery and 'length = routed - retrieved' are proved as an inductive lemma over "
             "those contracts. SQLiteBroker: statement order / bound parameters / BEGIN IMMEDIATE ownership as glue obligations; the SQL statements' meaning "
             "is only enumerated (bounded stand-in against the same sequence model, incl. 2000 same-timestamp messages).",
        technique="contract-based deductive verification (AST->z3 sequence VCs) + inductive lemma over the contracts + bounded history enumeration of both real brokers",
    ),
    "C09": dict(
        category="proof", design_ref="DESIGN.md §5 C09",
        text="MemBlockingControl: representation invariants I1-I3 (ready = waited-on and not waiting; no empty wait set; every forward edge has its reverse edge) "
             "are proved to be preserved, waiting_for_results / release_waiters are proved to add / remove exactly the stated edges over the whole graph, and "
             "get_blocking_invocations is proved to yield only ready runnable ids, never more than max(n,0), all of them when fewer than n, without duplicates. "
             "Tree completion is liveness and is not claimed. " 
             "The orchestrator-level declaration records every awaited id whatever its status (contract); bounded: waits declared on a child in every status, chains and group trees of nested waits on 1 and 2 slots.",
        technique="contract-based deductive verification (AST->z3 VCs with quantified set/map invariants) + bounded wait-graph histories on both real backends + bounded waits-in-every-status and nested wait trees on the real ThreadRunner",
    ),
    "C12": dict(
        category="proof", design_ref="DESIGN.md §5 C12",
        text="can_run_atomic_service is proved (real arithmetic, all runner counts, positions, intervals, margins, instants) to authorise a runner exactly inside "
             "its own window; windows of distinct positions are proved disjoint, margin-separated when the margin fits, non-empty and inside the cycle; single "
             "runner always, absent runner never. IEEE rounding is outside the proof and covered by a stated float grid on the real functions.",
        technique="contract-based deductive verification (AST->z3 VCs, nonlinear real arithmetic) + bounded float grid with nextafter neighbours",
    ),
})

CLAIMED.update({
    "C02": dict(
        category="proof", design_ref="DESIGN.md §5 C02",
        text="Sequential kernel + ownership: (i) on the real status table every path between two claims passes a status that releases ownership and only the owner "
             "(or a recovery status) moves an owned invocation (finite lemma + the C01 equivalence proof); (ii) get_additional_invocations_to_run / "
             "get_blocking_invocations_to_run are proved to yield an id only after that activation's own PENDING request returned normally, and every yielded "
             "invocation is PENDING under that runner; (iii) lock/transaction ownership obligations: the Mem read-validate-write happens under the lock selected "
             "for that id, the SQLite orchestrator transition and broker retrieve run inside BEGIN IMMEDIATE on one connection. No interleaving is explored by "
             "the proof; forced two-thread schedules are a bounded stand-in.",
        technique="contract-based deductive verification (sequential contracts + lock/transaction ownership obligations on the real ASTs) + forced-schedule bounded stand-in",
    ),
    "C03": dict(
        category="other", design_ref="DESIGN.md §5 C03",
        text="Safety kernel only: the no-stranding predicate J (final, or available and queued, or PENDING/RUNNING with an owner) is proved to hold for every "
             "registered id at every exit of registration (single and batch), claiming, reroute and retry, for all states satisfying J at entry. The poll "
             "failing on a blocked RETRY/REROUTED invocation strands a message and is listed as a known finding. Liveness is outside this technique.",
        technique="contract-based deductive verification of an invariant at function exits (AST->z3 VCs over abstract component contracts)",
    ),
    "C05": dict(
        category="proof", design_ref="DESIGN.md §5 C05",
        text="'SUCCESS => result stored, FAILED => exception stored' is proved as a step invariant between every two effects of set_invocation_result / "
             "set_invocation_exception and at all their exits (normal, refused, unknown id, storage fault), i.e. exactly the states a concurrent reader can see. "
             "Leaf contracts: the in-memory outcome tables are written one entry at a time and storing one kind of outcome never touches the other (SQLite: one "
             "committed upsert into the own table, nothing else); the client data store writes on every call and addresses the whole content (C15 functions); "
             "get_final_result never yields a value for a non-final observed status, returns the stored result of THIS invocation on SUCCESS and raises its "
             "stored exception on FAILED. The value round trip through third-party serializers is C15's (bounded there). " 
             "Also: every outcome is read through get_final_result (structural), rebuilding a stored exception keeps no process-wide state (purity scan); bounded: a reader right before every backend effect of the real finishing operations and every effect failing once, exception classes defined after the first reads.",
        technique="contract-based deductive verification: step invariant between every two effects of the real glue functions + leaf and reader contracts + structural/purity scans + bounded reader-between-effects and exception-class histories",
    ),
    "C06": dict(
        category="other", design_ref="DESIGN.md §5 C06",
        text="Sequential kernel: authorised <=> no same-key invocation in the given statuses; arguments indexed on every registering path incl. the batch path; "
             "blocked invocations end CONCURRENCY_CONTROLLED(_FINAL) per option. Two genuine defects are listed as known findings (poll raises for blocked "
             "RETRY/REROUTED invocations; check-then-act window between the authorisation check and the RUNNING request), each replayed on the real code. " 
             "Bounded additions: a batch that repeats one call, plain versus batched submission with small and externalised keys, equal keys of different tasks within one poll.",
        technique="contract-based deductive verification of the real glue (AST->z3 VCs over abstract component contracts) + ownership obligation + replays on the real code + bounded submission-path and cross-task scenarios on both backends",
    ),
    "C07": dict(
        category="proof", design_ref="DESIGN.md §5 C07",
        text="route_call is proved, for every registration mode, key filter and raise option: no REGISTERED match or DISABLED => exactly one new REGISTERED, queued "
             "invocation and nothing else changes; a REGISTERED match => one of the matches is returned and nothing changes; raise option + different call identity "
             "=> rejected, nothing changes. Both real backends are enumerated over submission/claim histories (bounded).",
        technique="contract-based deductive verification of route_call and registration glue + bounded submission histories on both backends",
    ),
    "C10": dict(
        category="proof", design_ref="DESIGN.md §5 C10",
        text="Proved: a successful transition is followed by exactly one history request with the returned record and the same id, a refused one by none; "
             "registration records one entry per new invocation; add_history starts exactly one writer thread for (id, record, runner) and registers it for "
             "flushing before starting it; the Mem store appends exactly one entry per id. Writer lateness is not explored; SQLite history is bounded.",
        technique="contract-based deductive verification (AST->z3 VCs; thread starts as trace obligations) + bounded lifecycle histories on both backends",
    ),
})

CLAIMED.update({
    "C04": dict(
        category="proof", design_ref="DESIGN.md §5 C04",
        text="MemOrchestrator's two recovery scans are proved to yield exactly the stale sets (PENDING for at least the limit; RUNNING under an owner without a "
             "heartbeat inside the timeout, or none), heartbeats are proved to be recorded for exactly the reported ids, and the two recovery core tasks are proved "
             "to re-queue every stale invocation and leave every other one untouched even when some recovery transitions are refused (lost races). SQLite scans bounded.",
        technique="contract-based deductive verification (AST->z3 VCs over real arithmetic and quantified set/map invariants) + bounded boundary cases on both backends",
    ),
    "C14": dict(
        category="proof", design_ref="DESIGN.md §5 C14",
        text="Loop iteration of PersistentProcessRunner and MultiThreadRunner proved: dead workers are forgotten, the pool is refilled to its configured size, live workers "
             "are kept; get_active_child_runner_ids returns exactly the tracked ids whose process is alive (so heartbeats are reported for live workers only). "
             "OS processes are abstract objects with an uninterpreted liveness predicate. " 
             "Queue-driven sizing of MultiThreadRunner and the reporting of child heartbeats (exactly the children alive at this pass) are under contract as well.",
        technique="contract-based deductive verification (AST->z3 VCs with abstract process objects) + bounded stand-in processes on the real loop code",
    ),
    "C17": dict(
        category="proof", design_ref="DESIGN.md §5 C17",
        text="sanitize_table_prefix is proved (z3/cvc5 strings) to return, for every id string, an SQL identifier of the form sanitised-id + '_' + 8 hex digits of "
             "sha256(id); equal prefixes need equal hash and sanitised parts; every SQL statement of the five sqlite modules is built from literals, '?' lists and "
             "own table names only (frame scan). The purge footprint is enumerated on a shared file with adversarial ids, not proved.",
        technique="contract-based deductive verification over SMT strings + SQL-text frame scan + bounded adversarial shared-file runs",
    ),
    "C19": dict(
        category="proof", design_ref="DESIGN.md §5 C19",
        text="ConcurrentInvocation.result is proved equal to the retry recurrence written from the property (recursive contract with a decreasing measure): number of "
             "body executions, retry counter, outcome class and payload. DistributedInvocation.run is proved to be one unfolding of the same recurrence per attempt "
             "(RETRY + counter + re-queue / result then SUCCESS / exception then FAILED), the body starting only after the activation's own RUNNING request. "
             "Closed forms (max_retries+1, k, 1 executions) are lemmas. The calls of a parallelized group are proved the same on both paths: prepare_arguments and "
             "distribute_batch_calls against one specification of the j-th call (own parameters over the common ones, every position routed exactly once, in order). "
             "Result collection, nested calls and direct tasks only in the bounded comparison, which lists one known finding (lazy sync group after a failing member).",
        technique="contract-based deductive verification against a recursive spec function (body as oracle) and of the group construction functions + bounded sync/distributed comparison of scripted and group programs through the real thread runner",
    ),
    "C20": dict(
        category="other", design_ref="DESIGN.md §5 C20",
        text="Every GET route of the monitor (enumerated from the AST) is shown to reach only `reads` methods of the backends, effect classes being computed from the "
             "real Mem and SQLite implementations; queue_view, the one handler calling mutators, is checked against 'queue unchanged on every exit': proved when the "
             "page covers the queue, two genuine defects (rotation, drop on a missing record) are listed as known findings with replays on the real monitor. "
             "The effect analysis follows field aliases and object-level calls (app, Task, Call, Invocation); a bounded stand-in reads out all backends around every GET "
             "of the real monitor for generated parameters and states.",
        technique="effect/frame analysis over the real ASTs + contract-based verification of queue_view over the C08 sequence contracts + bounded full read-out of the backends around every GET",
    ),
})

CLAIMED.update({
    "C13": dict(
        category="other", design_ref="DESIGN.md §5 C13",
        text="Kernel: the cron decision function is proved equal to the spec written from the statement under the croniter schedule axioms; the compare-and-swap on "
             "the last cron execution and the trigger-run claim are proved for the Mem store (incl. lock ownership) and as SQL glue incl. BEGIN IMMEDIATE ownership for "
             "SQLite. Three genuine defects are known findings with replays on the real code (minute precision of croniter.match; k pending occurrences collapsed / "
             "launched with the first occurrence's arguments). trigger_loop_iteration itself is only in bounded scenarios. " 
             "One poll of a cron condition (_should_trigger_cron_condition) yields an occurrence iff the condition holds for (now, the STORED last execution) and then moves the stored value (contract over an abstract store; found and fixed the first-poll defect 5a8d3fa); bounded: cron decisions against a brute-force schedule evaluation, shared condition with re-registration, alternating pollers.",
        technique="contract-based deductive verification (assumed croniter contract with conformance test, lock/transaction ownership) + bounded loop scenarios + poll contract + bounded brute-force cron evaluation",
    ),
    "C15": dict(
        category="other", design_ref="DESIGN.md §5 C15",
        text="compute_args_id is proved (SMT strings/sequences) to be sha256 of the encoding of ALL pairs in sorted-key order, a function of the mapping, 'no_args' when "
             "empty; the encoding step is proved injective from the assumed json.dumps contract; _generate_key content-addresses the whole value; size routing and "
             "resolve(serialize(x)) = x are proved over an abstract store with content-addressing and LRU invariants. Third-party serializers and call spellings are "
             "bounded. One known finding (strings starting with the reserved prefix do not round-trip). " 
             "Bounded additions: explicit falsy arguments bind as Python binds them (inspect), exceptions round-trip small and externalised.",
        technique="contract-based deductive verification over SMT strings/sequences + bounded stand-ins for third-party round trips",
    ),
    "C18": dict(
        category="other", design_ref="DESIGN.md §5 C18",
        text="Proved: sequence numbers 1,2,3.. per operation and executor; the executor a task body gets belongs to the workflow of the CURRENT invocation, starts at "
             "position 0 for a new execution and is reused within one execution (the cache invariant that the unfixed code violated). Record-or-replay of the "
             "dynamically typed operations is bounded (fresh executor over recorded data, two workflows, the same task for two workflows through the real runner). "
             "The record store: SQLite get/set_workflow_data proved as SQL glue under read and commit faults ('nothing recorded' only when the store returned no row); "
             "the in-memory store by an ownership scan plus a bounded line-level preemption of one workflow's operation by another's.",
        technique="contract-based deductive verification of the counter, the executor cache invariant, execute_task and the SQLite record-store glue + ownership scan + bounded record-or-replay and preemption runs",
    ),
})

CLAIMED.update({
    "C11": dict(
        category="other", design_ref="DESIGN.md §5 C11",
        text="Rely/guarantee proof for the thread runner: the loop thread is verified function by function (_kill_and_reroute, ThreadRunner._on_stop, "
             "_reclaim_available_slots, runner_loop_iteration, BaseRunner.on_stop/stop_runner_loop/run) while task threads are an environment relation "
             "written from the lifecycle spec and proved closed under every accepted request of a task thread. Proved: after run() returns, every "
             "invocation of the runner's table is final or available-and-queued and nothing is PENDING/RUNNING under the runner; a stop request always "
             "takes the flag down. Two genuine defects are known findings with replays on the real runner (join of a waiter blocks the stop forever; "
             "slot reclaiming forgets invocations left RUNNING by a dead thread). Process runners: only C14's pool contracts. " 
             "Status reads are scheduling points of the task threads; retry/reroute of a task thread verified under the C03 registry (status write before re-queue); the stop-signal handlers stay installed until the sweep is over (structural).",
        technique="contract-based deductive verification with a rely relation for the task threads (AST->z3 VCs) + bounded stop-in-every-phase runs of the real ThreadRunner",
    ),
})

CLAIMED.update({
    "C16": dict(
        category="other", design_ref="DESIGN.md §0.2(10), §5 C16",
        text="NOT a proof of observational equivalence. Deductive part: both backend families implement every abstract operation of the six shared base "
             "classes with the same parameters (syntactic obligations), and one representative Mem/SQLite pair per component is verified against one "
             "contract (in-memory fully; SQLite at glue level: which statement, in which transaction, bound to which values). The statement 'cannot be told "
             "apart' is decided only by a bounded differential run of the two real backends: seeded random sequences over 41 public operations with a "
             "controlled clock, every return value / error class and a full read-out compared after every operation. It found and led to the repair of two "
             "defects; three classes of out-of-protocol histories that still differ are known findings.",
        technique="shared interface contracts verified for both implementations (AST->z3 VCs; SQL only at glue level) + bounded differential run of the two real backends",
    ),
})

NOT_YET = {}


def main():
    props = [json.loads(l)["id"] for l in open(os.path.join(HERE, "properties.jsonl"))]
    checks = []
    for pid in props:
        if pid not in CLAIMED:
            continue
        c = CLAIMED[pid]
        checks.append({
            "property_id": pid,
            "quick_cmd": f"./check {pid} --tier quick",
            "thorough_cmd": f"./check {pid} --tier thorough",
            "evidence_file": f"/verif/evidence/{pid}.json",
            "replay_cmd_template": f"./check {pid} --replay {{path}}",
            "engine": "pyvc",
            "level_claimed": {"category": c["category"], "text": c["text"], "design_ref": c["design_ref"]},
            "level_note": c.get("note", COMMON_NOTE),
            "technique": c["technique"],
        })
    na = [{"property_id": pid, "reason": NOT_YET.get(pid, "no check registered yet: contracts for this property are still being built (see DESIGN.md §9 build order)")}
          for pid in props if pid not in CLAIMED]
    manifest = {
        "version": 1,
        "setup_cmd": "./setup.sh",
        "hooks": {
            "guard": "PYNENC_VERIF",
            "enable": "not used: contracts are sidecar files under /verif/contracts, no instrumentation is compiled into /repo",
            "baseline_off_cmd": BASELINE,
            "source_commits": [],
            "add_only": True,
        },
        "engines": [{"name": "pyvc", "path": "/verif/pyvc", "serves_properties": sorted(CLAIMED),
                     "kind_free_text": "own verification-condition generator: path-wise symbolic execution of the real Python ASTs (re-read from /repo on every run) "
                                       "against sidecar contracts; obligations discharged by z3, cvc5 as second solver; counter-models replayed on the real code"}],
        "checks": checks,
        "not_applicable": na,
        "notes": "Exit codes of ./check: 0 held, 1 violation (VIOLATION line), 2 undecided (unsupported construct, or an obligation of a changed function that no solver decides), 3 checker error. "
                 "Known findings: /verif/findings/known_findings.jsonl.",
    }
    json.dump(manifest, open(os.path.join(HERE, "MANIFEST.json"), "w"), indent=1)
    try:
        import jsonschema
        jsonschema.validate(manifest, json.load(open("/root/.vp/MANIFEST.schema.json")))
        print("MANIFEST.json valid;", len(checks), "checks,", len(na), "not_applicable")
    except ImportError:
        print("written (jsonschema not available)")


if __name__ == "__main__":
    main()
