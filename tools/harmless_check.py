#!/usr/bin/env python3
"""False-alarm test: apply behaviour-preserving patches (one at a time) to a scratch copy of /repo and run every check on it.
Any VIOLATION / non-zero exit is printed.  usage: harmless_check.py <dir with hNN.diff> [check ids...]"""
import glob, os, shutil, subprocess, sys, tempfile, json

HERE = os.path.dirname(os.path.dirname(os.path.abspath(__file__)))
ALL = [f"C{i:02d}" for i in range(1, 21)]


def main():
    d = sys.argv[1]
    ids = sys.argv[2:] or ALL
    out = {}
    for patch in sorted(glob.glob(os.path.join(d, "h*.diff"))):
        name = os.path.basename(patch)
        tmp = tempfile.mkdtemp(prefix="pyvc_harmless_")
        try:
            for sub in ("pynenc", "pynmon"):
                shutil.copytree(os.path.join("/repo", sub), os.path.join(tmp, sub), ignore=shutil.ignore_patterns("__pycache__"))
            r = subprocess.run(["git", "apply", "--include=pynenc/*", "--include=pynmon/*", patch], cwd=tmp, capture_output=True, text=True)
            if r.returncode != 0:
                print(f"{name}: does not apply: {r.stderr[-200:]}", flush=True)
                continue
            for pid in ids:
                env = dict(os.environ, PYVC_NO_EVIDENCE="1")
                r = subprocess.run([os.path.join(HERE, "check"), pid, "--repo", tmp], capture_output=True, text=True, env=env)
                lines = [l for l in r.stdout.splitlines() if l.startswith(("VIOLATION", "  obligation", "  bounded", "UNDECIDED", "CHECKER"))]
                out.setdefault(name, {})[pid] = {"exit": r.returncode, "lines": lines[:6]}
                if r.returncode != 0:
                    print(f"{name}: {pid} exit {r.returncode}", flush=True)
                    for l in lines[:6]:
                        print("    " + l[:300], flush=True)
            print(f"{name}: done ({sum(1 for v in out.get(name, {}).values() if v['exit'] == 0)}/{len(ids)} checks exit 0)", flush=True)
        finally:
            shutil.rmtree(tmp, ignore_errors=True)
    json.dump(out, open(os.path.join(d, "harmless_results.json"), "w"), indent=1)


main()
