#!/usr/bin/env python3
"""Apply one textual edit to a scratch copy of the repository, run a check against it, clean up.
usage: mut.py <PID> <relative file> <old> <new> [extra check args]
Exit code = the check's exit code.  Engine self-validation helper (never touches /repo)."""
import os, shutil, subprocess, sys, tempfile

def main():
    pid, rel, old, new = sys.argv[1:5]
    extra = sys.argv[5:]
    tmp = tempfile.mkdtemp(prefix="pyvc_mut_")
    try:
        for d in ("pynenc", "pynmon"):
            shutil.copytree(os.path.join("/repo", d), os.path.join(tmp, d), ignore=shutil.ignore_patterns("__pycache__"))
        p = os.path.join(tmp, rel)
        s = open(p).read()
        if s.count(old) < 1:
            print("MUT-ERROR: pattern not found"); return 99
        s = s.replace(old, new, 1)
        open(p, "w").write(s)
        import py_compile
        py_compile.compile(p, doraise=True)
        here = os.path.dirname(os.path.dirname(os.path.abspath(__file__)))
        env = dict(os.environ, PYVC_NO_EVIDENCE="1")
        r = subprocess.run([os.path.join(here, "check"), pid, "--repo", tmp] + extra, capture_output=True, text=True, env=env)
        lines = [l for l in r.stdout.splitlines() if l.startswith(("VIOLATION", "  obligation", "  bounded", "UNDECIDED", "CHECKER", "KNOWN", "[", "    ob"))]
        print("\n".join(lines[:40]))
        if r.returncode not in (0, 1):
            print(r.stdout[-1500:], r.stderr[-1500:])
        print("exit", r.returncode)
        return r.returncode
    finally:
        shutil.rmtree(tmp, ignore_errors=True)

sys.exit(main())
