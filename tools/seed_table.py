#!/usr/bin/env python3
"""For every confirmed seeded change under /tmp/seeds: run the check(s) of its property against a scratch copy of /repo
with the patch applied, record the verdict in /verif/seeded/<seed>/detection.json and copy patch.diff / demo.py / meta.json.
usage: seed_table.py [seed names...]   (default: all with a validation.json)"""
import json, os, shutil, subprocess, sys, tempfile

SEEDS = "/tmp/seeds"
HERE = os.path.dirname(os.path.dirname(os.path.abspath(__file__)))
EXTRA = {"C05_2": ["C15"], "C03_1": ["C11"], "C09_2": ["C11"], "C07_1": ["C06"], "C07_2": ["C06"], "C03_2": ["C14"], "C14_2": ["C03"],
         "C11_5": ["C03", "C19"], "C19_5": ["C15"], "C13_6": ["C16"], "C15_6": ["C05"]}


def run_check(pid, repo):
    env = dict(os.environ, PYVC_NO_EVIDENCE="1")
    r = subprocess.run([os.path.join(HERE, "check"), pid, "--repo", repo], capture_output=True, text=True, env=env)
    lines = [l for l in r.stdout.splitlines() if l.startswith(("VIOLATION", "  obligation", "  bounded", "UNDECIDED", "CHECKER", "["))]
    return r.returncode, lines[:8]


def main():
    names = sys.argv[1:] or sorted(d for d in os.listdir(SEEDS) if os.path.isfile(os.path.join(SEEDS, d, "validation.json")))
    for name in names:
        sd = os.path.join(SEEDS, name)
        val = json.load(open(os.path.join(sd, "validation.json")))
        ok = val.get("demo_clean_exit") == 0 and val.get("demo_mutated_exit") not in (0, None) and val.get("suite_exit") == 0 and val.get("patch_applies") == "ok"
        out = os.path.join(HERE, "seeded", name)
        if not ok:
            print(f"{name}: NOT CONFIRMED {val}")
            continue
        os.makedirs(out, exist_ok=True)
        for f in ("patch.diff", "demo.py"):
            shutil.copy(os.path.join(sd, f), os.path.join(out, f))
        meta = json.load(open(os.path.join(sd, "meta.json")))
        pid = name.split("_")[0]
        tmp = tempfile.mkdtemp(prefix="pyvc_seedtab_")
        try:
            for d in ("pynenc", "pynmon"):
                shutil.copytree(os.path.join("/repo", d), os.path.join(tmp, d), ignore=shutil.ignore_patterns("__pycache__"))
            r = subprocess.run(["git", "apply", "--include=pynenc/*", "--include=pynmon/*", os.path.join(sd, "patch.diff")], cwd=tmp, capture_output=True, text=True)
            if r.returncode != 0:
                print(f"{name}: patch does not apply to the current tree: {(r.stdout + r.stderr)[-200:]}")
                det = {"patch_applies_to_current_tree": False}
            else:
                det = {"patch_applies_to_current_tree": True, "checks": {}}
                for p in [pid] + EXTRA.get(name, []):
                    code, lines = run_check(p, tmp)
                    det["checks"][p] = {"exit": code, "lines": [l[:400] for l in lines]}
                    print(f"{name}: {p} exit {code} {lines[0][:160] if lines else ''}", flush=True)
        finally:
            shutil.rmtree(tmp, ignore_errors=True)
        meta_out = {"property": pid, "summary": meta.get("summary"), "needs": meta.get("needs"), "files_changed": meta.get("files_changed"),
                    "author": "independent sub-agent given only the property text and its own scratch worktree",
                    "confirmed_by_me": {"how": "tools/validate_seed.sh in a scratch git worktree of /repo: demo on the clean tree, patch applied, demo again, "
                                               "whole existing test suite with the patch (failed tests rerun alone because the machine was shared)",
                                        "demo_clean_exit": val["demo_clean_exit"], "demo_mutated_exit": val["demo_mutated_exit"],
                                        "suite": val.get("suite_summary")},
                    "detection": det}
        json.dump(meta_out, open(os.path.join(out, "meta.json"), "w"), indent=1)


main()
