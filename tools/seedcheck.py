#!/usr/bin/env python3
"""Run checks against a seeded change: scratch copy of /repo + patch.diff, then ./check <PID> --repo <copy>.
usage: seedcheck.py <seed dir> <PID> [<PID> ...]"""
import os, shutil, subprocess, sys, tempfile, json

def main():
    seed = sys.argv[1]
    pids = sys.argv[2:]
    tmp = tempfile.mkdtemp(prefix="pyvc_seed_")
    here = os.path.dirname(os.path.dirname(os.path.abspath(__file__)))
    try:
        for d in ("pynenc", "pynmon"):
            shutil.copytree(os.path.join("/repo", d), os.path.join(tmp, d), ignore=shutil.ignore_patterns("__pycache__"))
        r = subprocess.run(["git", "apply", "--include=pynenc/*", "--include=pynmon/*", os.path.join(seed, "patch.diff")], cwd=tmp, capture_output=True, text=True)
        if r.returncode != 0:
            print("PATCH-FAILED", r.stdout[-500:], r.stderr[-300:]); return 99
        out = {}
        for pid in pids:
            env = dict(os.environ, PYVC_NO_EVIDENCE="1")
            r = subprocess.run([os.path.join(here, "check"), pid, "--repo", tmp], capture_output=True, text=True, env=env)
            lines = [l for l in r.stdout.splitlines() if l.startswith(("VIOLATION", "  obligation", "  bounded", "UNDECIDED", "CHECKER", "["))]
            print(f"== {pid}: exit {r.returncode}")
            print("\n".join(l[:260] for l in lines[:8]))
            out[pid] = {"exit": r.returncode, "lines": lines[:6]}
        return 0
    finally:
        shutil.rmtree(tmp, ignore_errors=True)

sys.exit(main())
