#!/usr/bin/env python3
"""Regenerate the detection table of DESIGN.md §0.6 from seeded/*/meta.json."""
import os, re, subprocess, sys
HERE = os.path.dirname(os.path.dirname(os.path.abspath(__file__)))
table = subprocess.run([sys.executable, os.path.join(HERE, "tools", "detection_table.py")], capture_output=True, text=True).stdout
p = os.path.join(HERE, "DESIGN.md")
s = open(p).read()
s = re.sub(r"<!-- DETECTION_TABLE_BEGIN -->.*?<!-- DETECTION_TABLE_END -->", "<!-- DETECTION_TABLE_BEGIN -->\n" + table.replace("\\", "\\\\") + "<!-- DETECTION_TABLE_END -->", s, flags=re.S)
open(p, "w").write(s)
print(table.count("\n"), "rows")
