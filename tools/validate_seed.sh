#!/bin/bash
# validate_seed.sh <seed dir>: confirm a seeded change myself in a scratch worktree:
#   demo passes on the clean tree, fails with the patch, and the existing suite passes with the patch.
# Writes <seed dir>/validation.json ; removes the worktree afterwards.
set -u
SEED="$1"; NAME=$(basename "$SEED")
WT=$(mktemp -d /tmp/val_${NAME}_XXXX); rmdir "$WT"
git -C /repo worktree add -q --detach "$WT" HEAD || exit 9
cd "$WT"
/venv/bin/python "$SEED/demo.py" > "$SEED/val_clean.log" 2>&1; CLEAN=$?
if ! git apply "$SEED/patch.diff" 2> "$SEED/val_apply.log"; then APPLY=fail; else APPLY=ok; fi
/venv/bin/python "$SEED/demo.py" > "$SEED/val_mut.log" 2>&1; MUT=$?
if [ "${2:-suite}" = "suite" ]; then
  # the suite is run in two parts: on this shared machine the first MultiThread combination test sometimes fails its timing assertion and then
  # hangs pytest in teardown; it is deselected from the main run and run on its own (up to three attempts) afterwards
  HANGER='pynenc_tests/integration/combinations/test_app_combinations.py::test_task_execution[SQLite MultiThread JsonPickle]'
  nice -n 5 timeout 2400 /venv/bin/python -m pytest -q -p no:cacheprovider --timeout=240 -q --deselect "$HANGER" > "$SEED/val_suite.log" 2>&1; SUITE=$?
  LONE=1
  for attempt in 1 2 3; do
    timeout 300 /venv/bin/python -m pytest -q -p no:cacheprovider --timeout=120 -q "$HANGER" > "$SEED/val_suite_lone.log" 2>&1 && { LONE=0; break; }
  done
  if [ $SUITE -eq 0 ] && [ $LONE -ne 0 ]; then SUITE=1; echo "FAILED $HANGER - alone" >> "$SEED/val_suite.log"; fi
  SUMMARY=$(grep -E "passed|failed" "$SEED/val_suite.log" | tail -1)
  if [ $SUITE -ne 0 ]; then
    # the machine is shared: rerun only the failed tests, alone, before concluding anything
    FAILED=$(grep -hE "^(FAILED|ERROR) pynenc_tests" "$SEED/val_suite.log" | sed -E 's/^(FAILED|ERROR) //; s/ - .*//' | sort -u)
    if [ -n "$FAILED" ]; then
      echo "$FAILED" | tr '\n' '\0' | xargs -0 timeout 900 /venv/bin/python -m pytest -q -p no:cacheprovider --timeout=600 > "$SEED/val_suite_rerun.log" 2>&1; RERUN=$?
      SUMMARY="$SUMMARY ; failed tests rerun alone: exit $RERUN $(grep -E 'passed|failed' "$SEED/val_suite_rerun.log" | tail -1)"
      if [ $RERUN -eq 0 ]; then SUITE=0; fi
    fi
  fi
else SUITE=-1; SUMMARY="not run"; fi
cd /; git -C /repo worktree remove --force "$WT"
python3 - <<PY
import json
json.dump({"demo_clean_exit": $CLEAN, "patch_applies": "$APPLY", "demo_mutated_exit": $MUT, "suite_exit": $SUITE, "suite_summary": """$SUMMARY""".strip()[-200:]},
          open("$SEED/validation.json", "w"), indent=1)
PY
echo "$NAME clean=$CLEAN mut=$MUT suite=$SUITE $SUMMARY"
